//! In-process drivers over the public API of the repository crates: analyse sources held as overlays
//! (or on disk), link, and run the interpreter one public step at a time under a step monitor.

use crate::util::panic::{PanicInfo, catch};
use std::path::{Path, PathBuf};
use std::sync::Arc;
use std::sync::atomic::{AtomicU64, Ordering};
use zydeco_dynamics::syntax::{Computation, SemCompu, SemValue};
use zydeco_dynamics::{BuiltinRootLinker, Eval, ProgKont, RootLinker, Runtime, Step};
use zydeco_session::{AnalysisError, AnalysisOutcome, CompilerSession, ExecutableProgram, ProgramAnalysis, SourceCaches};

/// A set of source files, paths relative to a (virtual or real) directory; the first is the root.
#[derive(Clone, Debug, PartialEq, Eq)]
pub struct Sources {
    pub files: Vec<(String, String)>,
}

impl Sources {
    pub fn single(text: impl Into<String>) -> Self {
        Sources { files: vec![("root.zy".to_string(), text.into())] }
    }
    pub fn root_name(&self) -> &str {
        &self.files[0].0
    }
    pub fn root_text(&self) -> &str {
        &self.files[0].1
    }
    pub fn to_json(&self) -> serde_json::Value {
        serde_json::Value::Object(self.files.iter().map(|(p, t)| (p.clone(), serde_json::Value::String(t.clone()))).collect())
    }
    pub fn hash(&self) -> u64 {
        let mut h = 0u64;
        for (p, t) in &self.files {
            h = h.wrapping_mul(31).wrapping_add(crate::util::rng::hash64(p.as_bytes()));
            h = h.wrapping_mul(31).wrapping_add(crate::util::rng::hash64(t.as_bytes()));
        }
        h
    }
    /// Materialise on disk under `dir`.
    pub fn write_to(&self, dir: &Path) -> PathBuf {
        for (p, t) in &self.files {
            let path = dir.join(p);
            if let Some(parent) = path.parent() {
                let _ = std::fs::create_dir_all(parent);
            }
            std::fs::write(&path, t).expect("write source file");
        }
        dir.join(&self.files[0].0)
    }
}

static VIRTUAL: AtomicU64 = AtomicU64::new(0);

/// A fresh directory name that does not exist on disk; sessions address overlay files under it.
pub fn virtual_dir() -> PathBuf {
    let n = VIRTUAL.fetch_add(1, Ordering::Relaxed);
    PathBuf::from(format!("/zv-virtual/{}-{}", std::process::id(), n))
}

/// The classified result of `CompilerSession::analyze`.
#[derive(Clone, Debug)]
pub enum Verdict {
    Checked,
    /// rejected by the type checker, with the rendered messages of the reports
    Rejected { messages: Vec<String> },
    /// a phase before type checking failed through the normal error path
    Error { class: String, message: String },
    Panic(PanicInfo),
}

impl Verdict {
    pub fn class(&self) -> &'static str {
        match self {
            | Verdict::Checked => "checked",
            | Verdict::Rejected { .. } => "rejected",
            | Verdict::Error { .. } => "error",
            | Verdict::Panic(_) => "panic",
        }
    }
    pub fn is_accept(&self) -> bool {
        matches!(self, Verdict::Checked)
    }
    /// rejected through the normal error path (type error or earlier phase)
    pub fn is_reject(&self) -> bool {
        matches!(self, Verdict::Rejected { .. } | Verdict::Error { .. })
    }
    pub fn brief(&self) -> String {
        match self {
            | Verdict::Checked => "checked".into(),
            | Verdict::Rejected { messages } => format!("rejected: {}", messages.first().cloned().unwrap_or_default()),
            | Verdict::Error { class, message } => format!("error[{class}]: {message}"),
            | Verdict::Panic(p) => format!("panic: {}", p.short()),
        }
    }
}

pub struct Analyzed {
    pub session: CompilerSession,
    pub root: PathBuf,
    pub result: Option<Result<Arc<ProgramAnalysis>, AnalysisError>>,
    pub verdict: Verdict,
}

pub fn error_class(e: &AnalysisError) -> &'static str {
    match e {
        | AnalysisError::Source { .. } => "source",
        | AnalysisError::TextualProgram { .. } => "textual",
        | AnalysisError::Desugar { .. } => "desugar",
        | AnalysisError::Resolve { .. } => "resolve",
    }
}

pub fn classify(result: &Result<Arc<ProgramAnalysis>, AnalysisError>) -> Verdict {
    match result {
        | Ok(analysis) => match analysis.outcome() {
            | AnalysisOutcome::Checked { .. } => Verdict::Checked,
            | AnalysisOutcome::Rejected { reports } => {
                let messages = reports.reports.iter().map(|r| render_report(r, analysis)).collect();
                Verdict::Rejected { messages }
            }
        },
        | Err(e) => Verdict::Error { class: error_class(e).to_string(), message: e.to_string() },
    }
}

fn render_report(
    report: &ariadne::Report<'static, (zydeco_utils::span::PathDisplay, std::ops::Range<usize>)>, analysis: &ProgramAnalysis,
) -> String {
    let mut buffer = Vec::new();
    let _ = report.write(SourceCaches::analysis(analysis), &mut buffer);
    strip_ansi(&String::from_utf8_lossy(&buffer))
}

pub fn strip_ansi(s: &str) -> String {
    let mut out = String::with_capacity(s.len());
    let mut chars = s.chars().peekable();
    while let Some(c) = chars.next() {
        if c == '\u{1b}' {
            if chars.peek() == Some(&'[') {
                chars.next();
                for d in chars.by_ref() {
                    if d.is_ascii_alphabetic() {
                        break;
                    }
                }
            }
        } else {
            out.push(c);
        }
    }
    out
}

/// Analyse sources installed as overlays in a fresh session (no disk access for them).
pub fn analyze_overlay(sources: &Sources) -> Analyzed {
    let dir = virtual_dir();
    let mut session = CompilerSession::default();
    for (p, t) in &sources.files {
        let _ = session.set_overlay(dir.join(p), t.clone());
    }
    let root = dir.join(sources.root_name());
    analyze_in(session, root)
}

/// Analyse a root that lives on disk in a fresh session.
pub fn analyze_disk(root: &Path) -> Analyzed {
    analyze_in(CompilerSession::default(), root.to_path_buf())
}

pub fn analyze_in(session: CompilerSession, root: PathBuf) -> Analyzed {
    match catch(|| session.analyze(&root)) {
        | Ok(result) => {
            let verdict = match catch(|| classify(&result)) {
                | Ok(v) => v,
                | Err(p) => Verdict::Panic(p),
            };
            Analyzed { session, root, result: Some(result), verdict }
        }
        | Err(p) => Analyzed { session, root, result: None, verdict: Verdict::Panic(p) },
    }
}

impl Analyzed {
    pub fn analysis(&self) -> Option<&Arc<ProgramAnalysis>> {
        self.result.as_ref().and_then(|r| r.as_ref().ok())
    }
    pub fn executable(&self) -> Result<ExecutableProgram, String> {
        let analysis = self.analysis().ok_or("no analysis")?;
        match catch(|| self.session.executable_program(analysis)) {
            | Ok(Ok(exe)) => Ok(exe),
            | Ok(Err(e)) => Err(format!("not executable: {e}")),
            | Err(p) => Err(format!("panic in executable_program: {}", p.short())),
        }
    }
}

impl Analyzed {
    /// Run a checked plain computation root (no Builtin package parameter).
    pub fn run_plain(&self, fuel: u64) -> Option<RunResult> {
        let analysis = self.analysis()?;
        let checked = catch(|| self.session.checked_program(analysis)).ok()??;
        let zydeco_statics::syntax::TermAnnId::Compu(root, _) = checked.root else { return None };
        Some(run_plain_root(checked.scoped, checked.statics, root, fuel))
    }
}

/* ------------------------------------------------------------------------------------------ */
/* Interpreter step monitor                                                                    */
/* ------------------------------------------------------------------------------------------ */

#[derive(Clone, Debug, PartialEq, Eq)]
pub enum End {
    Exit(i32),
    /// returned value rendered structurally
    Ret(String),
    Dry,
    /// the machine unwound: classified panic
    Panic(PanicClass, PanicInfo),
    FuelOut,
    /// state invariant broken after a step (hooked state check)
    BadState(String),
    LinkError(String),
}

#[derive(Clone, Copy, Debug, PartialEq, Eq)]
pub enum PanicClass {
    /// an undefined machine state: the refutation C01 looks for
    Stuck,
    /// the one defined trap: integer division / remainder by zero
    ArithmeticTrap,
    /// legacy std-handle operations whose declared type has no error continuation
    HostIo,
    Other,
}

pub fn classify_panic(p: &PanicInfo) -> PanicClass {
    let m = p.message.as_str();
    if m.contains("attempt to divide by zero") || m.contains("attempt to calculate the remainder with a divisor of zero") {
        return PanicClass::ArithmeticTrap;
    }
    if m.contains("legacy standard-") {
        return PanicClass::HostIo;
    }
    let f = p.file.as_str();
    let in_dynamics = f.contains("lang/dynamics/src/");
    let stuck_msgs = [
        "Force on non-thunk",
        "App not at stacktop",
        "Kont not at stacktop",
        "no matching arm",
        "variable does not exist",
        "Hole in",
        "pattern match failed",
        "type-checked",
        "Comatch on non-Dtor",
        "Prim on non-Dtor",
        "Value application on non-closure",
        "only products have product fields",
        "expected host byte buffer",
        "internal error: entered unreachable code",
        "non-empty product fields",
    ];
    if in_dynamics || stuck_msgs.iter().any(|s| m.contains(s)) {
        return PanicClass::Stuck;
    }
    PanicClass::Other
}

#[derive(Clone, Debug)]
pub struct RunResult {
    pub stdout: Vec<u8>,
    pub end: End,
    pub steps: u64,
    /// names of the machine transitions taken
    pub transitions: std::collections::BTreeSet<&'static str>,
    pub max_stack: usize,
}

fn transition_name(c: &Computation) -> &'static str {
    match c {
        | Computation::Hole(_) => "Hole",
        | Computation::VAbs(_) => "VAbs",
        | Computation::VApp(_) => "VApp",
        | Computation::Fix(_) => "Fix",
        | Computation::Force(_) => "Force",
        | Computation::Ret(_) => "Ret",
        | Computation::Do(_) => "Do",
        | Computation::Let(_) => "Let",
        | Computation::Match(_) => "Match",
        | Computation::CoMatch(_) => "CoMatch",
        | Computation::Dtor(_) => "Dtor",
        | Computation::Prim(_) => "Prim",
    }
}

pub fn render_sem(v: &SemValue) -> String {
    use zydeco_syntax::*;
    match v {
        | SemValue::Closure(_) => "<closure>".into(),
        | SemValue::Thunk(_) => "<thunk>".into(),
        | SemValue::Ctor(Ctor(name, body)) => format!("{}({})", name.0, render_sem(body)),
        | SemValue::Triv(_) => "()".into(),
        | SemValue::VCons(ConsN(items, tail)) => {
            let mut parts: Vec<String> = items.iter().map(render_sem).collect();
            parts.push(render_sem(tail));
            format!("[{}]", parts.join(","))
        }
        | SemValue::Literal(l) => match l {
            | Literal::Integer(i) => format!("{}:{}", i.value(), i.integer_type().map(|t| t.type_name()).unwrap_or("?")),
            | Literal::Float(f) => format!("f{:#x}", f.to_bits()),
            | Literal::String(s) => format!("{:?}", s.as_str()),
            | Literal::Char(c) => format!("{:?}", c),
        },
        | SemValue::Host(h) => format!("{:?}", h),
    }
}

/// Link an executable (Builtin package applied) and run it under the step monitor.
pub fn run_executable(exe: ExecutableProgram, stdin: &[u8], args: &[String], fuel: u64) -> RunResult {
    let linked = catch(|| {
        BuiltinRootLinker { scoped: exe.scoped, statics: exe.statics, root: exe.root, signature: exe.signature }.run()
    });
    let program = match linked {
        | Ok(Ok(p)) => p,
        | Ok(Err(e)) => return RunResult::early(End::LinkError(e.to_string())),
        | Err(p) => return RunResult::early(End::Panic(classify_panic(&p), p)),
    };
    run_program(program, stdin, args, fuel)
}

/// Link a plain computation root (no Builtin package) and run it.
pub fn run_plain_root(
    scoped: Arc<zydeco_surface::scoped::arena::ScopedArena>, statics: Arc<zydeco_statics::arena::StaticsArena>,
    root: zydeco_statics::syntax::CompuId, fuel: u64,
) -> RunResult {
    match catch(|| RootLinker { scoped, statics, root }.run()) {
        | Ok(p) => run_program(p, b"", &[], fuel),
        | Err(p) => RunResult::early(End::Panic(classify_panic(&p), p)),
    }
}

impl RunResult {
    fn early(end: End) -> Self {
        RunResult { stdout: Vec::new(), end, steps: 0, transitions: Default::default(), max_stack: 0 }
    }
}

pub fn run_program(program: zydeco_dynamics::syntax::DynamicsProgram, stdin: &[u8], args: &[String], fuel: u64) -> RunResult {
    let mut input = std::io::Cursor::new(stdin.to_vec());
    let mut output: Vec<u8> = Vec::new();
    let mut steps = 0u64;
    let mut transitions = std::collections::BTreeSet::new();
    let mut max_stack = 0usize;
    let end;
    {
        let mut runtime = Runtime::new(&mut input, &mut output, args, program);
        let mut current: Computation = runtime.program.root.as_ref().clone();
        end = loop {
            if steps >= fuel {
                break End::FuelOut;
            }
            steps += 1;
            transitions.insert(transition_name(&current));
            let stepped = catch(|| current.step(&mut runtime));
            match stepped {
                | Err(p) => break End::Panic(classify_panic(&p), p),
                | Ok(Step::Done(kont)) => {
                    // quiescent-point invariant: a returned value only with an empty stack
                    break match kont {
                        | ProgKont::ExitCode(c) => End::Exit(c),
                        | ProgKont::Dry => End::Dry,
                        | ProgKont::Ret(v) => {
                            if !runtime.stack.is_empty() {
                                End::BadState(format!("Done(Ret) with {} frames left on the stack", runtime.stack.len()))
                            } else {
                                End::Ret(render_sem(&v))
                            }
                        }
                    };
                }
                | Ok(Step::Step(next)) => {
                    max_stack = max_stack.max(runtime.stack.len());
                    current = next;
                }
            }
        };
    }
    RunResult { stdout: output, end, steps, transitions, max_stack }
}

/// Convenience: analyse overlay sources and, if accepted and executable, run them.
pub struct CheckedRun {
    pub verdict: Verdict,
    pub run: Option<RunResult>,
    pub not_executable: Option<String>,
}

pub fn check_and_run(sources: &Sources, stdin: &[u8], args: &[String], fuel: u64) -> CheckedRun {
    let analyzed = analyze_overlay(sources);
    if !analyzed.verdict.is_accept() {
        return CheckedRun { verdict: analyzed.verdict, run: None, not_executable: None };
    }
    match analyzed.executable() {
        | Ok(exe) => {
            let run = run_executable(exe, stdin, args, fuel);
            CheckedRun { verdict: analyzed.verdict, run: Some(run), not_executable: None }
        }
        | Err(e) => CheckedRun { verdict: analyzed.verdict, run: None, not_executable: Some(e) },
    }
}

/// Structured coverage errors of an analysed root (empty if the query fails).
pub fn catch_coverage(analyzed: &Analyzed) -> Vec<zydeco_statics::validate::CoverageError> {
    match catch(|| analyzed.session.coverage(&analyzed.root)) {
        | Ok(Ok(v)) => v,
        | _ => Vec::new(),
    }
}
